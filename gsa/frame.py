"""Normal-form analyses of the hand-written frame of the parser: parse(), the look-ahead functions, add_error,
read_token, handle_external_error.  Everything is read off the abstract interpreter's effect trees with the
parser's own helpers kept symbolic (stubs), so helper extraction, aliases, flag-controlled loops, unrolled
conditions and early returns all map to the same facts."""
from __future__ import annotations

import itertools

from .absint import new_interp, Interp, HList, HDict, HInst, NONE, const, is_const, fmt, mk_not, mk_cmp
from .common import AnalysisError
from .facts import facts
from .names import N
from . import nf

PQ = "gherkin.parser.Parser"


def _stub(name, result=None, typed=None):
    counter = itertools.count(1)

    def h(I, st, fi, args, kwargs, n, tree):
        k = next(counter)
        tree.append(("ev", name, tuple(args), getattr(n, "lineno", None), k))
        if result is None:
            return NONE
        t = (result, k)
        if typed:
            I.types[t] = I.facts.cls(typed)
        return t
    return h


def truthy_forms(x):
    return [x, mk_cmp("Gt", ("call", "len", (x,), ()), const(0)), mk_cmp("GtE", ("call", "len", (x,), ()), const(1)),
            mk_not(("cmp", "Eq", ("call", "len", (x,), ()), const(0))), ("call", "bool", (x,), ()), ("call", "len", (x,), ())]


def is_truthy_of(c, x) -> bool:
    return c in truthy_forms(x)


def nonempty_guard(c, pol, x) -> bool:
    """Guard (c, pol) holds exactly when collection x is non-empty (any spelling)."""
    et = nf.emptiness_test(c, pol)
    return et is not None and et[0] == x and et[1] is False


def eval_bool(t, assign):
    """Evaluate a boolean term built from atoms in ``assign`` (dict term -> bool); None when undetermined."""
    if is_const(t):
        return bool(t[1])
    if t in assign:
        return assign[t]
    if t[0] == "not":
        v = eval_bool(t[1], assign)
        return None if v is None else (not v)
    if t[0] == "call" and t[1] == "bool" and len(t[2]) == 1:
        return eval_bool(t[2][0], assign)
    if t[0] == "bool":
        vals = [eval_bool(x, assign) for x in t[2]]
        if t[1] == "or":
            if any(v is True for v in vals):
                return True
            return None if any(v is None for v in vals) else False
        if any(v is False for v in vals):
            return False
        return None if any(v is None for v in vals) else True
    if t[0] == "cond":
        c = eval_bool(t[1], assign)
        if c is None:
            return None
        return eval_bool(t[2] if c else t[3], assign)
    return None


def eval_term(t, assign):
    """Resolve cond-terms under an assignment of their tests."""
    if not isinstance(t, tuple) or not t:
        return t
    if t[0] == "cond":
        c = eval_bool(t[1], assign)
        if c is None:
            return t
        return eval_term(t[2] if c else t[3], assign)
    if t[0] == "call" and t[1] == "bool" and len(t[2]) == 1:
        v = eval_bool(t[2][0], assign)
        return t if v is None else const(v)
    return t


def simulate(tree, assign):
    """Walk an effect tree under a truth assignment; returns (events, exit) where exit is 'break'/'continue'/'return'/'raise'/None.
    Events are the leaf nodes met, in order.  Undetermined conditions abort with exit 'unknown'."""
    events = []

    def run(nodes):
        for n in nodes:
            k = n[0]
            if k == "if":
                c = eval_bool(n[1], assign)
                if c is None:
                    events.append(("undetermined", n[1]))
                    return "unknown"
                r = run(n[2] if c else n[3])
                if r:
                    return r
            elif k == "call":
                r = run(n[2])
                if r == "return":
                    continue        # the callee returned; the caller goes on
                if r:
                    return r
            elif k == "loop":
                events.append(n)
            elif k in ("break", "continue"):
                return k
            elif k == "return":
                events.append(n)
                return "return"
            elif k == "raise":
                events.append(n)
                return "raise"
            elif k == "try":
                r = run(n[1])
                if r:
                    return r
            else:
                events.append(n)
        return None

    ex = run(tree)
    return events, ex


# ---- look-ahead functions -------------------------------------------------------------------------
KINDS = ["EOF", "Empty", "Comment", "TagLine", "FeatureLine", "RuleLine", "BackgroundLine", "ScenarioLine", "ExamplesLine", "StepLine",
         "DocStringSeparator", "TableRow", "Language", "Other"]


def analyse_lookahead(name: str) -> dict:
    I = new_interp()
    fi = I.facts.func(f"{PQ}.{name}")
    info = {"line": fi.node.lineno, "fi": fi, "expected": [], "skip": [], "problems": [], "requeue": []}
    I.intrinsics[f"{PQ}.{N.READ_TOKEN}"] = _stub("read_token", "token", "gherkin.token.Token")
    for k in KINDS:
        def mk(k):
            def h(I_, st, fi_, args, kwargs, n, tree):
                tree.append(("ev", "match", (k,) + tuple(args), getattr(n, "lineno", None), 0))
                return ("m", k, args[2] if len(args) > 2 else None)
            return h
        if I.facts.has_func(f"{PQ}.match_{k}"):
            I.intrinsics[f"{PQ}.match_{k}"] = mk(k)
    tree, rv, st = I.run(fi.qualname)
    ctxp = ("param", fi.params()[1])
    loops = [(n, c) for n, c in nf.iter_nodes(tree) if n[0] == "loop" and not nf.loops_in_ctx(c)]
    if len(loops) != 1:
        info["problems"].append(f"expected exactly one read-ahead loop, found {len(loops)}")
        return info
    loop, lctx = loops[0]
    lid = loop[1]
    linfo = I.loops[lid]
    ltest = linfo.get("test")
    flag_loop = None        # (variable, polarity that keeps the loop running) for ``while flag`` / ``while not flag``
    if linfo.get("kind") == "while" and ltest is not None and not is_const(ltest, True):
        t_, pol_ = nf.norm_guard(ltest, True)
        if t_[0] == "phi" and t_[1] == lid and is_const(linfo.get("carried_init", {}).get(t_[2])) \
                and bool(linfo["carried_init"][t_[2]][1]) == pol_:
            flag_loop = (t_[2], pol_)
    if linfo.get("kind") != "while" or not (is_const(ltest, True) or flag_loop):
        info["problems"].append(f"the read-ahead loop is neither left by break nor controlled by a local flag: while {fmt(ltest, I)}")
    body = loop[2]
    reads = [(n, c) for n, c in nf.iter_nodes(body) if n[0] == "ev" and n[1] == "read_token"]
    if len(reads) != 1 or nf.guards_in_ctx(reads[0][1]):
        info["problems"].append(f"each iteration must read exactly one token, unconditionally (found {len(reads)} read site(s))")
        return info
    tok = ("token", reads[0][0][4])
    if reads[0][0][2][1:2] != (ctxp,):
        info["problems"].append("the token is not read through this parse's context (read_token(context))")
    # the local queue: the list the token is appended to
    appends = [(n, c) for n, c in nf.iter_nodes(body) if n[0] == "mutate" and n[2] in ("append", "appendleft", "insert", "extend") and tok in n[3]]
    if len(appends) != 1 or appends[0][0][2] != "append" or nf.guards_in_ctx(appends[0][1]):
        info["problems"].append("token read ahead is not appended to one local queue unconditionally")
        return info
    q = appends[0][0][1]
    qo = I.obj(q)
    if not (isinstance(qo, HList) and not qo.segs and qo.origin[2] == I.obj(q).origin[2]):
        info["problems"].append("local queue is not initialised empty")
    # order inside the body: read, append, then tests
    # a return inside an inlined callee (helper, lambda) ends that callee, not the loop
    flat = [n for n, c in nf.iter_nodes(body) if n[0] in ("ev", "mutate", "break", "continue", "return", "raise")
            and not (n[0] == "return" and any(x[0] == "call" for x in c))]
    ir = flat.index(reads[0][0])
    ia = flat.index(appends[0][0])
    first_exit = min([i for i, n in enumerate(flat) if n[0] in ("break", "continue", "return", "raise")], default=len(flat))
    first_match = min([i for i, n in enumerate(flat) if n[0] == "ev" and n[1] == "match"], default=len(flat))
    if not (ir < ia < first_exit):
        info["problems"].append("token is appended to the queue after a loop exit (a read token can be lost)" if ia > first_exit else "queue append precedes the read")
    for n in flat:
        if n[0] in ("return", "raise"):
            info["problems"].append(f"line {n[-1] if isinstance(n[-1], int) else '?'}: {n[0]} inside the look-ahead loop bypasses the re-queue")
    other_mut = [n for n, c in nf.iter_nodes(body) if n[0] in ("mutate", "setattr", "setitem") and n is not appends[0][0]]
    for n in other_mut:
        info["problems"].append(f"unexpected effect in the look-ahead loop: {n[0]} {n[2] if n[0] == 'mutate' else ''} on {fmt(n[1], I)}")
    # semantics by simulation over the kinds tested
    atoms = []
    for n, c in nf.iter_nodes(body):
        if n[0] == "ev" and n[1] == "match":
            a = ("m", n[2][0], n[2][3] if len(n[2]) > 3 else None)
            if a not in atoms:
                atoms.append(a)
            if a[2] != tok:
                info["problems"].append(f"match_{n[2][0]} is applied to {fmt(a[2], I)}, not to the token just read")
            if len(n[2]) > 2 and n[2][2] != ctxp:
                info["problems"].append(f"match_{n[2][0]} is given {fmt(n[2][2], I)} as its context, not this parse's context")
    res_var = rv[2] if rv[0] == "loopout" and rv[1] == lid else None
    if res_var is None:
        info["problems"].append(f"the function does not return the look-ahead flag computed by the loop: {fmt(rv, I)}")
    benv = linfo.get("break_env", {})
    init = linfo.get("carried_init", {}).get(res_var) if res_var else None
    outcomes = {}
    carried = linfo.get("carried", {})
    for bits in itertools.product([False, True], repeat=len(atoms)):
        assign = dict(zip(atoms, bits))
        events, ex = simulate(body, assign)
        flag = None
        leaves = ex == "break"
        env_at_exit = benv
        if not leaves and ex in (None, "continue") and flag_loop is not None:
            # a flag-controlled loop is left when the flag, as updated by this iteration, stops the loop
            fv = eval_term(carried.get(flag_loop[0], ("phi", lid, flag_loop[0])), assign)
            if is_const(fv) and bool(fv[1]) != flag_loop[1]:
                leaves = True
                env_at_exit = carried
        if leaves and res_var is not None:
            v = eval_term(env_at_exit.get(res_var, ("phi", lid, res_var)), assign)
            if v == ("phi", lid, res_var):
                v = init
            flag = v[1] if is_const(v) else fmt(v, I)
        outcomes[bits] = ("break" if leaves else (ex if ex else "continue"), flag)
    kinds = [a[1] for a in atoms]
    def only(k):
        return tuple(x == k for x in kinds)
    E = [k for k in kinds if outcomes.get(only(k)) == ("break", True)]
    S = [k for k in kinds if outcomes.get(only(k)) == ("continue", None)]
    info["expected"], info["skip"] = E, S
    if len(E) != 1:
        info["problems"].append(f"exactly one token kind must end the look-ahead with success, found {E}")
    for bits, (ex, flag) in outcomes.items():
        a = dict(zip(kinds, bits))
        if any(a[k] for k in E):
            want = ("break", True)
        elif any(a[k] for k in S):
            want = ("continue", None)
        else:
            want = ("break", False)
        if (ex, flag) != want:
            info["problems"].append(f"for a token matching {[k for k in kinds if a[k]] or 'nothing'} the loop does {ex}/{flag}, expected {want[0]}/{want[1]}")
            break
    if set(kinds) - set(E) - set(S):
        info["problems"].append(f"token kinds tested without effect on the look-ahead: {sorted(set(kinds) - set(E) - set(S))}")
    # after the loop: exactly one re-queue of the whole local queue at the right end of the context queue
    tq = ("attr", ctxp, N.CTX_QUEUE)
    post = [(n, c) for n, c in nf.iter_nodes(tree) if n[0] == "mutate" and n[1] == tq]
    info["requeue"] = [(n[2], fmt(n[3][0], I) if n[3] else None, n[4]) for n, c in post]
    if len(post) != 1:
        info["problems"].append(f"expected exactly one re-queue of the read tokens, found {len(post)}")
    else:
        n, c = post[0]
        if n[2] != "extend":
            info["problems"].append(f"line {n[4]}: tokens re-queued with token_queue.{n[2]}(), not extend() (order/right end)")
        if n[3] != (q,):
            info["problems"].append(f"line {n[4]}: re-queued object is not the local queue")
        if nf.loops_in_ctx(c) or nf.guards_in_ctx(c):
            info["problems"].append(f"line {n[4]}: the re-queue is conditional or inside the loop")
    rq = [n for n, c in nf.iter_nodes(tree) if n[0] == "mutate" and n[1] == q and n is not appends[0][0]]
    if rq:
        info["problems"].append("the local queue is modified outside the single append")
    if init is not None and not is_const(init, False):
        info["problems"].append("result is not initialised to False")
    info["queue_var"] = fmt(q, I)
    return info


# ---- add_error ------------------------------------------------------------------------------------
def _shadow_dedup(I, tree, guard, actx, ctxp, err, se) -> bool:
    """De-duplication through a set of the collected errors' texts kept next to the list: the append is guarded by
    ``str(error) not in context.<texts>``, and <texts> is in step with the list - built from the constructor's errors by
    str(), given str(error) on the very path that appends error, and touched nowhere else (nor is the list)."""
    import ast
    from .facts import facts
    g, pol = guard
    sh = None
    if g[0] == "cmp" and g[1] == "In" and g[2] == se and pol is False:
        sh = g[3]
    elif g[0] == "cmp" and g[1] == "NotIn" and g[2] == se and pol is True:
        sh = g[3]
    if sh is None or sh[0] != "attr" or sh[1] != ctxp:
        return False
    X = sh[2]
    adds = [(n, c) for n, c in nf.iter_nodes(tree) if n[0] == "mutate" and n[1] == sh]
    if len(adds) != 1 or adds[0][0][2] != "add" or adds[0][0][3] != (se,) or nf.guards_in_ctx(adds[0][1]) != nf.guards_in_ctx(actx):
        return False
    f = facts()
    try:
        cc = f.cls(f"{PQ.rsplit('.', 1)[0]}.ParserContext")
    except Exception:
        return False
    if cc is None or "__init__" not in cc.methods:
        return False
    ctor = cc.methods["__init__"]
    me = ctor.params()[0]
    # the constructor: self.errors = <param E>; self.<texts> = {str(e) for e in E} | set(map(str, E)) | set() when every
    # construction passes an empty list
    e_param = None
    init_ok = False
    stores = 0
    for n in ast.walk(ctor.node):
        tg = None
        if isinstance(n, ast.Assign) and len(n.targets) == 1:
            tg, v = n.targets[0], n.value
        elif isinstance(n, ast.AnnAssign) and n.value is not None:
            tg, v = n.target, n.value
        if tg is None or not (isinstance(tg, ast.Attribute) and isinstance(tg.value, ast.Name) and tg.value.id == me):
            continue
        if tg.attr == N.CTX_ERRORS and isinstance(v, ast.Name):
            e_param = v.id
    for n in ast.walk(ctor.node):
        tg = None
        if isinstance(n, ast.Assign) and len(n.targets) == 1:
            tg, v = n.targets[0], n.value
        elif isinstance(n, ast.AnnAssign) and n.value is not None:
            tg, v = n.target, n.value
        if tg is None or not (isinstance(tg, ast.Attribute) and isinstance(tg.value, ast.Name) and tg.value.id == me and tg.attr == X):
            continue
        stores += 1
        is_str = lambda e, var: isinstance(e, ast.Call) and isinstance(e.func, ast.Name) and e.func.id == "str" and len(e.args) == 1 and not e.keywords \
            and isinstance(e.args[0], ast.Name) and e.args[0].id == var
        if isinstance(v, ast.SetComp) and len(v.generators) == 1 and not v.generators[0].ifs and isinstance(v.generators[0].target, ast.Name) \
                and isinstance(v.generators[0].iter, ast.Name) and v.generators[0].iter.id == e_param and is_str(v.elt, v.generators[0].target.id):
            init_ok = True
        elif isinstance(v, ast.Call) and isinstance(v.func, ast.Name) and v.func.id == "set" and len(v.args) == 1 and isinstance(v.args[0], ast.Call) \
                and isinstance(v.args[0].func, ast.Name) and v.args[0].func.id == "map" and len(v.args[0].args) == 2 \
                and isinstance(v.args[0].args[0], ast.Name) and v.args[0].args[0].id == "str" and isinstance(v.args[0].args[1], ast.Name) and v.args[0].args[1].id == e_param:
            init_ok = True
    if not init_ok or stores != 1 or e_param is None:
        return False
    # nobody else touches the set or the list
    own = f"{PQ}.{N.ADD_ERROR}"
    for fi in f.all_functions():
        if fi.module.name.startswith("scripts"):
            continue
        for n in ast.walk(fi.node):
            if isinstance(n, ast.Attribute) and n.attr == X and isinstance(n.ctx, (ast.Store, ast.Del)) and fi.qualname != ctor.qualname:
                return False
            if isinstance(n, ast.Call) and isinstance(n.func, ast.Attribute) and n.func.attr in I.MUTATORS and isinstance(n.func.value, ast.Attribute) \
                    and n.func.value.attr in (X, N.CTX_ERRORS) and fi.qualname != own:
                return False
            if isinstance(n, (ast.Subscript,)) and isinstance(n.ctx, (ast.Store, ast.Del)) and isinstance(n.value, ast.Attribute) and n.value.attr in (X, N.CTX_ERRORS):
                return False
            if isinstance(n, ast.AugAssign) and isinstance(n.target, ast.Attribute) and n.target.attr in (X, N.CTX_ERRORS):
                return False
    return True


def analyse_add_error() -> dict:
    I = new_interp()
    fi = I.facts.func(f"{PQ}.{N.ADD_ERROR}")
    I.intrinsics["gherkin.errors.CompositeParserException.__init__"] = _stub("composite")
    tree, rv, st = I.run(fi.qualname)
    p = fi.params()
    ctxp, err = ("param", p[1]), ("param", p[2])
    errs = ("attr", ctxp, N.CTX_ERRORS)
    out = {"fi": fi, "I": I, "problems": [], "threshold": None, "line": fi.node.lineno}
    apps = [(n, c) for n, c in nf.iter_nodes(tree) if n[0] == "mutate" and n[1] == errs]
    if len(apps) != 1 or apps[0][0][2] != "append" or apps[0][0][3] != (err,):
        out["problems"].append(("append", "an error is collected by exactly one context.errors.append(error)",
                                [(n[2], [fmt(a, I) for a in n[3]]) for n, _ in apps]))
        return out
    app, actx = apps[0]
    # de-duplication: the append happens iff no collected error has the same str()
    se = ("call", "str", (err,), ())
    gs = nf.guards_in_ctx(actx)
    ok = False
    if len(gs) == 1 and gs[0][1] is False:
        # "no collected error has the same str()": membership test, any(), or a scanning helper
        ex = nf.exists_form(I, gs[0][0], tree)
        if ex is not None:
            it, lid, pred = ex
            el = ("call", "str", (("elem", lid),), ())
            ok = it == errs and pred in (("cmp", "Eq", el, se), ("cmp", "Eq", se, el))
    if not ok and not gs:
        # loop form: for known in errors: if str(known) == str(error): return
        loops = [(n, c) for n, c in nf.iter_nodes(tree) if n[0] == "loop" and not nf.loops_in_ctx(c)]
        before = [n for n, c in loops]
        if len(loops) == 1 and I.loops[loops[0][0][1]].get("iter") == errs and not I.loops[loops[0][0][1]].get("conds"):
            lid = loops[0][0][1]
            el = ("call", "str", (("elem", lid),), ())
            rets = [(n, c) for n, c in nf.iter_nodes(loops[0][0][2]) if n[0] == "return"]
            if len(rets) == 1:
                g2 = nf.guards_in_ctx(rets[0][1])
                eqs = [("cmp", "Eq", el, se), ("cmp", "Eq", se, el)]
                flat = [n for n, c in nf.iter_nodes(tree)]
                ok = len(g2) == 1 and g2[0][1] is True and g2[0][0] in eqs and flat.index(loops[0][0]) < flat.index(app) \
                    and not [n for n, c in nf.iter_nodes(loops[0][0][2]) if n[0] in ("mutate", "break", "raise")]
    if not ok and len(gs) == 1:
        ok = _shadow_dedup(I, tree, gs[0], actx, ctxp, err, se)
    if not ok:
        out["problems"].append(("dedup", "identical messages are collected once (str(error) compared with every collected error of this parse)",
                                [(fmt(c, I), p2) for c, p2 in gs]))
    # cap: raise right after the append, guarded by the list length only
    raises = [(n, c) for n, c in nf.iter_nodes(tree) if n[0] == "raise"]
    found = None
    for n, c in raises:
        g2 = [x for x in nf.guards_in_ctx(c) if x not in gs]
        flat = [m for m, _ in nf.iter_nodes(tree)]
        if len(g2) == 1 and g2[0][0][0] == "cmp" and g2[0][0][2] == ("call", "len", (errs,), ()) and is_const(g2[0][0][3]) and flat.index(n) > flat.index(app):
            op = {"Gt": ">", "GtE": ">=", "Eq": "==", "Lt": "<", "LtE": "<="}.get(g2[0][0][1])
            k = g2[0][0][3][1]
            pol = g2[0][1]
            thr = None
            for m in range(0, 64):
                v = {"Gt": m > k, "GtE": m >= k, "Eq": m == k, "Lt": m < k, "LtE": m <= k}.get(g2[0][0][1])
                if v is not None and v == pol:
                    thr = m
                    break
            comp = [e for e, _ in nf.iter_nodes(tree) if e[0] == "ev" and e[1] == "composite"]
            carries = any(e[2][1:2] == (errs,) and e[2][0] == n[1] for e in comp)
            found = {"guard": f"len(errors) {op} {k}" + ("" if pol else " is false"), "threshold": thr, "carries_list": carries,
                     "exception": I.obj(n[1]).cls.name if isinstance(I.obj(n[1]), HInst) else fmt(n[1], I)}
            out["threshold"] = thr
    out["cap"] = found
    out["n_raises"] = len(raises)
    return out


# ---- read_token -----------------------------------------------------------------------------------
def analyse_read_token() -> dict:
    I = new_interp()
    fi = I.facts.func(f"{PQ}.{N.READ_TOKEN}")
    reads = []

    def scan_read(I_, st_, fi_, args, kwargs, n, tree_):
        reads.append(args[0])
        tree_.append(("ev", "scanner_read", tuple(args), getattr(n, "lineno", None), 0))
        return ("scanned", args[0])
    I.intrinsics["gherkin.token_scanner.TokenScanner.read"] = scan_read
    tree, rv, st = I.run(fi.qualname)
    ctxp = ("param", fi.params()[1])
    q = ("attr", ctxp, N.CTX_QUEUE)
    sc = ("attr", ctxp, N.CTX_SCANNER)
    ok = False
    if rv[0] == "cond":
        if nonempty_guard(rv[1], True, q):
            ok = rv[2] == ("call", ".popleft", (q,), ()) and rv[3] == ("scanned", sc)
        elif nonempty_guard(rv[1], False, q):
            ok = rv[3] == ("call", ".popleft", (q,), ()) and rv[2] == ("scanned", sc)
    muts = [(n, c) for n, c in nf.iter_nodes(tree) if n[0] == "mutate"]
    mg = nf.guards_in_ctx(muts[0][1]) if len(muts) == 1 else []
    ok = ok and len(muts) == 1 and muts[0][0][1] == q and muts[0][0][2] == "popleft" and len(mg) == 1 and nonempty_guard(mg[0][0], mg[0][1], q)
    ok = ok and reads == [sc]
    return {"fi": fi, "ok": ok, "found": fmt(rv, I), "I": I}


# ---- handle_external_error ---------------------------------------------------------------------------
def analyse_wrapper() -> dict:
    I = new_interp()
    fi = I.facts.func(f"{PQ}.{N.HANDLE_EXTERNAL}")
    I.intrinsics[f"{PQ}.{N.ADD_ERROR}"] = _stub("add_error")
    tree, rv, st = I.run(fi.qualname)
    p = fi.params()
    selft, ctxp, dflt, arg, act = [("param", x) for x in p[:5]]
    stop = ("attr", selft, "stop_at_first_error")
    out = {"fi": fi, "I": I, "problems": []}
    res = {}
    for mode in (True, False):
        events, ex = simulate(tree, {stop: mode})
        res[mode] = (events, ex)
    # stop mode: action(argument) outside any try, result returned
    ev, ex = res[True]
    calls = [n for n in ev if n[0] == "dyncall"]
    rets = [n for n in ev if n[0] == "return"]
    in_try = _inside_try(tree, calls[0]) if calls else None
    transparent = in_try is False
    if in_try:
        # protected, but every handler hands the exception straight back in this mode (bare ``raise`` before any effect)
        trys_ = [n for n, c in nf.iter_nodes(tree) if n[0] == "try" and any(x is calls[0] for x, _ in nf.iter_nodes(n[1]))]
        transparent = bool(trys_)
        for t_ in trys_:
            for h in t_[2]:
                hev, hex_ = simulate(h[2], {stop: True})
                if not (hex_ == "raise" and len(hev) == 1 and hev[0][0] == "raise" and hev[0][1] == ("reraise",)):
                    transparent = False
    if not (len(calls) == 1 and calls[0][1] == act and calls[0][2] == (arg,) and ex == "return" and rets and rets[-1][1] == ("call", "<dyn>", (act, arg), ()) and transparent):
        out["problems"].append(("stop", "stop mode: the action runs unprotected and its result is returned (the first error propagates as raised)",
                                {"calls": len(calls), "inside_try": in_try, "exit": ex}))
    # collect mode
    trys = [n for n, c in nf.iter_nodes(tree) if n[0] == "try" and (stop, False) in nf.guards_in_ctx(c) or (n[0] == "try" and not nf.guards_in_ctx(c))]
    trys = [n for n, c in nf.iter_nodes(tree) if n[0] == "try"]
    if len(trys) != 1:
        out["problems"].append(("collect", "collect mode: the action runs inside one try", len(trys)))
        return out
    t = trys[0]
    body_calls = [n for n, _ in nf.iter_nodes(t[1]) if n[0] == "dyncall"]
    if not (len(body_calls) == 1 and body_calls[0][1] == act and body_calls[0][2] == (arg,)):
        out["problems"].append(("collect", "collect mode: exactly the action call is protected", len(body_calls)))
    handlers = {h[0]: (h[0], h[1], nf.specialise(h[2], {stop: False})) + tuple(h[3:]) for h in t[2]}
    if sorted(handlers) != ["CompositeParserException", "ParserException"]:
        out["problems"].append(("handlers", "collect mode: parser exceptions (single and composite) are caught, nothing broader", sorted(map(str, handlers))))
    ev2, ex2 = res[False]
    # success path returns the action's result
    # each handler: adds the error(s), then the function returns the default
    rest_after_try = _after(tree, t)
    for name, h in handlers.items():
        adds = [(n, c) for n, c in nf.iter_nodes(h[2]) if n[0] == "ev" and n[1] == "add_error"]
        if name == "ParserException":
            ok = len(adds) == 1 and adds[0][0][2][1] == ctxp and adds[0][0][2][2][0] == "excvar" and not nf.loops_in_ctx(adds[0][1])
            if not ok:
                out["problems"].append(("single", "a parser exception from a matcher/builder call becomes one collected error", len(adds)))
        elif name == "CompositeParserException":
            ok = False
            if len(adds) == 1:
                loops = nf.loops_in_ctx(adds[0][1])
                if len(loops) == 1:
                    it = I.loops[loops[0]].get("iter", ("x",))
                    ok = adds[0][0][2][2] == ("elem", loops[0]) and it[0] == "attr" and it[2] == "errors" and it[1][0] == "excvar" and not I.loops[loops[0]].get("conds") \
                        and adds[0][0][2][1] == ctxp
            if not ok:
                out["problems"].append(("composite", "a composite exception contributes each of its errors, in order", len(adds)))
        hev, hex_ = simulate(h[2], {stop: False})
        hr = [n for n in hev if n[0] == "return"]
        if hex_ == "return":
            okr = hr and hr[-1][1] == dflt
        else:
            aev, aex = simulate(rest_after_try, {stop: False})
            ar = [n for n in aev if n[0] == "return"]
            okr = hex_ is None and aex == "return" and ar and ar[-1][1] == dflt
        if not okr:
            out["problems"].append(("default", f"collect mode: after a collected {name} the wrapper returns the caller's default (no match / carry on)", hex_))
    return out


def _inside_try(tree, node, inside=False):
    for n in tree:
        if n is node:
            return inside
        if n[0] == "if":
            for sub in (n[2], n[3]):
                r = _inside_try(sub, node, inside)
                if r is not None:
                    return r
        elif n[0] in ("loop", "call"):
            r = _inside_try(n[2], node, inside)
            if r is not None:
                return r
        elif n[0] == "try":
            r = _inside_try(n[1], node, True)
            if r is not None:
                return r
            for h in n[2]:
                r = _inside_try(h[2], node, inside)
                if r is not None:
                    return r
    return None


def _after(tree, node):
    """Nodes following ``node`` in its own block (and enclosing blocks are not followed: canonical nesting puts the rest there)."""
    for i, n in enumerate(tree):
        if n is node:
            return tree[i + 1:]
        if n[0] == "if":
            for sub in (n[2], n[3]):
                r = _after(sub, node)
                if r is not None:
                    return r
        elif n[0] in ("loop", "call"):
            r = _after(n[2], node)
            if r is not None:
                return r
    return None


# ---- parse ---------------------------------------------------------------------------------------------
class ParseNF:
    def __init__(self) -> None:
        self.I = I = new_interp()
        self.fi = fi = I.facts.func(f"{PQ}.parse")
        f = I.facts
        I.intrinsics[f"{PQ}.{N.READ_TOKEN}"] = _stub("read_token", "token")
        I.intrinsics[f"{PQ}.{N.MATCH_TOKEN}"] = _stub("match_token", "state")
        I.intrinsics[f"{PQ}.start_rule"] = _stub("start_rule")
        I.intrinsics[f"{PQ}.end_rule"] = _stub("end_rule")
        I.intrinsics[f"{PQ}.get_result"] = _stub("get_result", "result")
        for q, nm in (("gherkin.ast_builder.AstBuilder.reset", "reset_builder"), ("gherkin.token_matcher.TokenMatcher.reset", "reset_matcher"),
                      ("gherkin.token_matcher.TokenMatcher.__init__", "new_matcher"), ("gherkin.token_scanner.TokenScanner.__init__", "new_scanner"),
                      ("gherkin.errors.CompositeParserException.__init__", "composite")):
            if f.has_func(q):
                I.intrinsics[q] = _stub(nm)
        self.tree, self.rv, self.st = I.run(fi.qualname)
        p = fi.params()
        self.selft = ("param", p[0])
        self.src = ("param", p[1])
        self.matcher_param = ("param", p[2]) if len(p) > 2 else None
        self.flat = [(n, c) for n, c in nf.iter_nodes(self.tree)]
        self.events = [(n, c) for n, c in self.flat if n[0] == "ev"]
        # the token loops: outermost loops in which the parser does something (reads, matches, opens or closes a rule ...);
        # a loop that only computes a value (a comprehension in a constructor, say) is not one
        self.loops = [(n, c) for n, c in self.flat if n[0] == "loop" and not nf.loops_in_ctx(c)
                      and any(m[0] == "ev" for m, _c in nf.iter_nodes(n[2]))]
        self.ctx = None
        for n, c in self.flat:
            if n[0] == "alloc":
                pass
        for oid, o in I.heap.items():
            if isinstance(o, HInst) and o.cls.name == "ParserContext":
                self.ctx = ("ref", oid)

    def ev(self, name):
        return [(n, c) for n, c in self.events if n[1] == name]

    def index(self, node) -> int:
        for i, (n, c) in enumerate(self.flat):
            if n is node:
                return i
        return -1

    def ctx_attr(self, name):
        if self.ctx is None or self.st is None:
            return None
        return self.st.ext.get((self.ctx, name))

    def loop_exit(self):
        """(loop node, exit condition term, how) for the single token loop."""
        if len(self.loops) != 1:
            return None
        loop, c = self.loops[0]
        lid = loop[1]
        info = self.I.loops[lid]
        test = info.get("test")
        if info.get("kind") != "while":
            return (loop, None, "not a while loop")
        breaks = [(n, cc) for n, cc in nf.iter_nodes(loop[2]) if n[0] == "break" and not nf.loops_in_ctx(cc)]
        # the loop may live in a generator fused into parse(): a ``return`` of that generator at the loop's own call
        # depth leaves the loop like a break, provided nothing follows the loop in the generator
        calls = [x for x in c if x[0] == "call"]
        if calls:
            host = next((n for n, cc in self.flat if n[0] == "call" and len(n) > 4 and n[4] == calls[-1][2]), None)
            tail_free = host is not None and host[2] and host[2][-1] is loop
            if tail_free:
                breaks += [(n, cc) for n, cc in nf.iter_nodes(loop[2]) if n[0] == "return" and not nf.loops_in_ctx(cc)
                           and not any(x[0] == "call" for x in cc)]
        if is_const(test, True):
            if len(breaks) != 1:
                return (loop, None, f"{len(breaks)} break(s)")
            g = nf.guards_in_ctx(breaks[0][1])
            if len(g) != 1 or not g[0][1]:
                return (loop, None, "break under " + str([(fmt(a, self.I), p) for a, p in g]))
            return (loop, g[0][0], "break", breaks[0][0])
        # flag-controlled: while not flag, flag := True when the condition holds
        t = test
        neg = False
        if t[0] == "not":
            t, neg = t[1], True
        if t[0] == "phi" and t[1] == lid and neg and not breaks:
            var = t[2]
            init = info.get("carried_init", {}).get(var)
            upd = info.get("carried", {}).get(var)
            if is_const(init, False) and upd is not None:
                if upd[0] == "cond" and is_const(upd[2], True) and upd[3] in (t, const(False)):
                    return (loop, upd[1], "flag", None)
                return (loop, upd, "flag", None)
        return (loop, None, f"while {fmt(test, self.I)}")


_PNF = None


def parse_nf() -> ParseNF:
    global _PNF
    if _PNF is None:
        _PNF = ParseNF()
    return _PNF


# ---- thin forwarders and the 14 matcher wrappers --------------------------------------------------------
def _hee_stub(log):
    def h(I, st, fi, args, kwargs, n, tree):
        log.append(tuple(args))
        tree.append(("ev", "hee", tuple(args), getattr(n, "lineno", None), len(log)))
        return ("hee", len(log))
    return h


def analyse_wrapper_fn(kind: str) -> dict:
    """Parser.match_<Kind>(context, token): False on EOF (except match_EOF), else the token matcher's match_<Kind> through the error wrapper."""
    I = new_interp()
    fi = I.facts.func(f"{PQ}.match_{kind}")
    log = []
    I.intrinsics[f"{PQ}.{N.HANDLE_EXTERNAL}"] = _hee_stub(log)
    I.intrinsics["gherkin.token.Token.eof"] = lambda I_, st, fi_, args, kw, n, tree: ("eof", args[0])
    tree, rv, st = I.run(fi.qualname)
    p = fi.params()
    info = {"kind": kind, "line": fi.node.lineno, "fi": fi, "eof_guard": False, "target": None, "default": None, "argument": None, "shape_ok": False,
            "guard_var": None, "found": fmt(rv, I)}
    if len(p) < 3:
        return info
    selft, ctxp, tokp = ("param", p[0]), ("param", p[1]), ("param", p[2])
    call = None
    if rv[0] == "hee":
        call = rv
    elif rv[0] == "cond":
        c = rv[1]
        cn, pol = nf.norm_guard(c, True)
        a, b = (rv[2], rv[3]) if pol else (rv[3], rv[2])
        if cn == ("eof", tokp) and is_const(a, False) and b[0] == "hee":
            info["eof_guard"] = True
            info["guard_var"] = p[2]
            call = b
    if call is None or len(log) != 1:
        return info
    args = log[0]
    if len(args) != 5:
        return info
    _self, ctx, dflt, arg, act = args
    info["default"] = dflt[1] if is_const(dflt) else fmt(dflt, I)
    info["argument"] = p[2] if arg == tokp else fmt(arg, I)
    if act[0] == "bound" and act[1] == ("attr", ctxp, N.CTX_MATCHER):
        info["target"] = act[2].rsplit(".", 1)[1]
    else:
        info["target"] = fmt(act, I)
    info["shape_ok"] = ctx == ctxp and arg == tokp
    return info


def analyse_forwarder(name: str, target: str) -> dict:
    """Parser.<name>(context, x) hands x to ast_builder.<target> through the error wrapper."""
    I = new_interp()
    fi = I.facts.func(f"{PQ}.{name}")
    log = []
    I.intrinsics[f"{PQ}.{N.HANDLE_EXTERNAL}"] = _hee_stub(log)
    tree, rv, st = I.run(fi.qualname)
    p = fi.params()
    selft = ("param", p[0])
    ok = False
    if len(log) == 1 and len(log[0]) == 5 and len(p) >= 3:
        _s, ctx, dflt, arg, act = log[0]
        ok = ctx == ("param", p[1]) and arg == ("param", p[2]) and act[0] == "bound" and act[1] == ("attr", selft, N.PARSER_BUILDER) \
            and act[2].endswith("." + target) and not [n for n, c in nf.iter_nodes(tree) if n[0] == "ev" and nf.guards_in_ctx(c)]
    return {"fi": fi, "ok": ok, "found": [[fmt(a, I) for a in x[1:]] for x in log]}
