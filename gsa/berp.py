"""Grammar (gherkin.berp) and the reference transducer derived from it, independently of Berp.

A machine position is a *continuation*: the tuple of grammar items still to be matched, with
``('end', R)`` markers where an AST rule R closes.  The grammar is not recursive, so the set of
reachable continuations is finite.
"""
from __future__ import annotations

import re

from .common import AnalysisError, read_text

BERP_FILE = "gherkin.berp"


class Rule:
    def __init__(self, name, ast_flag, hint, items, line):
        self.name = name
        self.ast = ast_flag          # True for ``Name!``
        self.hint = hint             # None | (skip tuple, expected token)
        self.items = items           # tuple of items
        self.line = line


class Grammar:
    def __init__(self) -> None:
        text = read_text(BERP_FILE)
        self.tokens: list[str] = []
        self.ignored: list[str] = []
        self.rules: dict[str, Rule] = {}
        self.order: list[str] = []
        self._parse(text)

    def _parse(self, text: str) -> None:
        # header
        mh = re.search(r"\[\s*(.*?)\n\]", text, re.S)
        if not mh:
            raise AnalysisError("gherkin.berp: header block not found")
        for ln in mh.group(1).splitlines():
            ln = ln.strip()
            m = re.match(r"(\w+)\s*->\s*(.*)$", ln)
            if not m:
                continue
            k, v = m.group(1), m.group(2).strip()
            if k == "Tokens":
                self.tokens = [t.strip().lstrip("#") for t in v.split(",") if t.strip()]
            elif k == "IgnoredTokens":
                self.ignored = [t.strip().lstrip("#") for t in v.split(",") if t.strip()]
        body = text[mh.end():]
        lineno = text[: mh.end()].count("\n")
        for raw in body.splitlines():
            lineno += 1
            ln = raw.split("//")[0].strip()
            if not ln:
                continue
            m = re.match(r"^(\w+)(!?)\s*(\[[^\]]*\])?\s*:=\s*(.*)$", ln)
            if not m:
                raise AnalysisError(f"gherkin.berp:{lineno}: unparsable rule line {raw!r}")
            name, bang, hint, rhs = m.groups()
            h = None
            if hint:
                mh2 = re.match(r"\[\s*(.*?)\s*->\s*#(\w+)\s*\]", hint)
                if not mh2:
                    raise AnalysisError(f"gherkin.berp:{lineno}: unparsable look-ahead hint {hint!r}")
                skip = tuple(x.strip().lstrip("#") for x in mh2.group(1).split("|"))
                h = (skip, mh2.group(2))
            items = self._parse_seq(self._lex(rhs, lineno), lineno)
            self.rules[name] = Rule(name, bool(bang), h, items, lineno)
            self.order.append(name)
        if not self.rules:
            raise AnalysisError("gherkin.berp: no rules")
        self.start = self.order[0]

    @staticmethod
    def _lex(rhs: str, lineno: int) -> list[str]:
        toks = re.findall(r"#\w+|\w+|[()|?*+]", rhs)
        if "".join(toks) != re.sub(r"\s+", "", rhs):
            raise AnalysisError(f"gherkin.berp:{lineno}: unexpected characters in {rhs!r}")
        return toks

    def _parse_seq(self, toks: list[str], lineno: int) -> tuple:
        pos = 0

        def atom():
            nonlocal pos
            t = toks[pos]
            if t == "(":
                pos += 1
                alts = [seq()]
                while pos < len(toks) and toks[pos] == "|":
                    pos += 1
                    alts.append(seq())
                if pos >= len(toks) or toks[pos] != ")":
                    raise AnalysisError(f"gherkin.berp:{lineno}: missing )")
                pos += 1
                a = ("alt", tuple(alts))
            elif t.startswith("#"):
                pos += 1
                a = ("tok", t[1:])
            elif re.match(r"\w+$", t):
                pos += 1
                a = ("rule", t)
            else:
                raise AnalysisError(f"gherkin.berp:{lineno}: unexpected {t!r}")
            if pos < len(toks) and toks[pos] in "?*+":
                m = toks[pos]
                pos += 1
                a = ({"?": "opt", "*": "star", "+": "plus"}[m], a)
            return a

        def seq():
            out = []
            while pos < len(toks) and toks[pos] not in ("|", ")"):
                out.append(atom())
            return tuple(out)

        s = seq()
        if pos != len(toks):
            raise AnalysisError(f"gherkin.berp:{lineno}: trailing input")
        return s

    # ---------------------------------------------------------------------------------
    def nullable(self, item) -> bool:
        k = item[0]
        if k == "tok":
            return False
        if k in ("opt", "star"):
            return True
        if k == "plus":
            return self.nullable(item[1])
        if k == "alt":
            return any(all(self.nullable(i) for i in s) for s in item[1])
        if k == "rule":
            return all(self.nullable(i) for i in self.rules[item[1]].items)
        if k == "end":
            return True
        raise AssertionError(item)

    def opts_in(self, item, k: str) -> list[tuple[tuple, tuple, object]]:
        """Ways to consume token kind k *inside* item: (events, remainder items, hint)."""
        t = item[0]
        if t == "tok":
            return [((), (), None)] if item[1] == k else []
        if t == "opt":
            return self.opts_in(item[1], k)
        if t in ("star", "plus"):
            return [(ev, rem + (("star", item[1]),), h) for ev, rem, h in self.opts_in(item[1], k)]
        if t == "alt":
            out = []
            for s in item[1]:
                out.extend(self.opts_seq(s, k))
            return out
        if t == "rule":
            r = self.rules.get(item[1])
            if r is None:
                raise AnalysisError(f"gherkin.berp: undefined rule {item[1]}")
            out = []
            for ev, rem, h in self.opts_seq(r.items, k):
                if r.ast:
                    ev = (("start", r.name),) + ev
                    rem = rem + (("end", r.name),)
                out.append((ev, rem, r.hint if r.hint is not None else h))
            return out
        if t == "end":
            return []
        raise AssertionError(item)

    def opts_seq(self, items: tuple, k: str):
        out = []
        for i, it in enumerate(items):
            for ev, rem, h in self.opts_in(it, k):
                out.append((ev, rem + tuple(items[i + 1:]), h))
            if not self.nullable(it):
                break
        return out

    def options(self, cont: tuple, k: str):
        """Ways to consume k at continuation ``cont`` in grammar order:
        (events, new continuation, hint)."""
        out = []
        pre: tuple = ()
        for i, it in enumerate(cont):
            if it[0] == "end":
                pre = pre + (("end", it[1]),)
                continue
            for ev, rem, h in self.opts_in(it, k):
                out.append((pre + ev, rem + tuple(cont[i + 1:]), h))
            if not self.nullable(it):
                break
        return out

    def initial(self) -> tuple:
        """Items of the start rule followed by #EOF (the start rule itself is opened and closed
        by Parser.parse around the token loop)."""
        return tuple(self.rules[self.start].items) + (("tok", "EOF"),)

    def expected_kinds(self, cont: tuple) -> list[str]:
        ks = []
        for k in self.tokens + ["Other", "EOF"]:
            if self.options(cont, k):
                ks.append(k)
        return ks

    # AST-rule children (for reader/writer agreement, C03)
    def children(self, name: str) -> dict[str, str]:
        """kinds collected directly into AST rule ``name`` with multiplicity '1', '?', '*', '+'.
        Non-AST rules are inlined; AST sub-rules appear under their own name; tokens under theirs."""
        out: dict[str, str] = {}

        def comb(outer: str, inner: str) -> str:
            if outer == "1":
                return inner
            if inner == "1":
                return outer
            if outer == "?" and inner == "?":
                return "?"
            if outer == "+" and inner == "+":
                return "+"
            return "*"

        def add(kind: str, mult: str) -> None:
            if kind in out:
                prev = out[kind]
                # two occurrences in sequence: at least as many as the sum
                out[kind] = "+" if ("1" in (prev, mult) or "+" in (prev, mult)) else "*"
            else:
                out[kind] = mult

        def walk(items, mult: str) -> None:
            for it in items:
                t = it[0]
                if t == "tok":
                    add(it[1], mult)
                elif t == "rule":
                    r = self.rules[it[1]]
                    if r.ast:
                        add(r.name, mult)
                    else:
                        walk(r.items, mult)
                elif t in ("opt", "star", "plus"):
                    m2 = {"opt": "?", "star": "*", "plus": "+"}[t]
                    walk((it[1],), comb(mult, m2))
                elif t == "alt":
                    for s in it[1]:
                        walk(s, comb(mult, "?"))

        walk(self.rules[name].items, "1")
        return out


_G: Grammar | None = None


def grammar() -> Grammar:
    global _G
    if _G is None:
        _G = Grammar()
    return _G


def fmt_cont(cont: tuple) -> str:
    def f(it):
        t = it[0]
        if t == "tok":
            return "#" + it[1]
        if t == "rule":
            return it[1]
        if t == "end":
            return f"</{it[1]}>"
        if t == "alt":
            return "(" + " | ".join(" ".join(f(x) for x in s) for s in it[1]) + ")"
        return f(it[1]) + {"opt": "?", "star": "*", "plus": "+"}[t]
    return " ".join(f(i) for i in cont) or "<empty>"


class RefStep:
    __slots__ = ("verdict", "as_kind", "events", "cont")

    def __init__(self, verdict, as_kind, events, cont):
        self.verdict = verdict      # 'consume' | 'skip' | 'error'
        self.as_kind = as_kind
        self.events = events
        self.cont = cont


def testers(kind: str) -> list[str]:
    """Matcher tests a line of own kind ``kind`` satisfies, besides #Other (Appendix A)."""
    if kind == "Language":
        return ["Language", "Comment"]
    if kind in ("Other", "EOF"):
        return [kind] if kind == "EOF" else []
    return [kind]


def ref_step(g: Grammar, cont: tuple, kind: str, outcome: str | None) -> RefStep:
    """Reference semantics of one line (property C02):
    own kind if expected (tag lines: first alternative in grammar order whose look-ahead hint is
    satisfied, un-hinted alternatives always are); else free text if expected; else skipped if
    ignorable; else an error that leaves the position unchanged."""
    for kk in testers(kind):
        opts = g.options(cont, kk)
        for ev, c2, hint in opts:
            # a hint guards an alternative only for the tokens it names (the run it looks past)
            if hint is None or kk not in hint[0] or hint[1] == outcome:
                return RefStep("consume", kk, ev, c2)
    if kind != "EOF":
        opts = g.options(cont, "Other")
        if opts:
            ev, c2, hint = opts[0]
            return RefStep("consume", "Other", ev, c2)
        for kk in testers(kind):
            if kk in g.ignored:
                return RefStep("skip", kk, (), cont)
    return RefStep("error", None, (), cont)
