"""ExcFlow: may-raise sets from explicit ``raise``/``assert`` statements, propagated over the resolved call graph,
filtered by try/except, with Parser.stop_at_first_error split into its two valuations and callable arguments
(handle_external_error(..., action)) bound per call site."""
from __future__ import annotations

import ast

from .astutil import dotted, walk_no_nested_defs
from .facts import facts, FuncInfo, ClassInfo

BUILTIN_BASES = {
    "Exception": "BaseException", "RuntimeError": "Exception", "ValueError": "Exception", "TypeError": "Exception", "KeyError": "LookupError",
    "IndexError": "LookupError", "LookupError": "Exception", "AssertionError": "Exception", "StopIteration": "Exception", "OSError": "Exception",
    "AttributeError": "Exception", "NotImplementedError": "RuntimeError", "BaseException": None,
}


class ExcFlow:
    def __init__(self) -> None:
        self.f = facts()
        self.memo: dict = {}
        self.sites: list[tuple] = []        # (exception name, file, line, qualname)
        self.unresolved: set = set()
        self.skip: set = set()

    # -- class hierarchy -------------------------------------------------------------------
    def bases(self, name: str) -> list[str]:
        out = [name]
        cs = self.f.classes_by_short.get(name, [])
        if cs:
            for c in cs[0].mro()[1:]:
                out.append(c.short)
            for bn in cs[0].mro()[-1].base_names:
                cur = bn
                while cur:
                    out.append(cur)
                    cur = BUILTIN_BASES.get(cur)
        else:
            cur = BUILTIN_BASES.get(name)
            while cur:
                out.append(cur)
                cur = BUILTIN_BASES.get(cur)
        return out

    def caught_by(self, exc: str, handler: str | None) -> bool:
        if handler is None:
            return True
        hs = [h.strip() for h in handler.strip("()").split(",")]
        b = self.bases(exc)
        return any(h.split(".")[-1] in b for h in hs)

    # -- resolution ------------------------------------------------------------------------
    def subclasses(self, cls: ClassInfo) -> list[ClassInfo]:
        return [c for m in self.f.modules.values() for c in m.classes.values() if cls in c.mro() and m.name != "gherkin.inout"]

    def instantiated(self) -> set:
        """Classes some code of the package constructs (``C(...)`` with C resolving to a repository class)."""
        if not hasattr(self, "_inst"):
            inst = set()
            for fn in self.f.all_functions():
                if fn.module.name == "gherkin.inout":
                    continue
                for n in ast.walk(fn.node):
                    if isinstance(n, ast.Call) and isinstance(n.func, ast.Name):
                        c = self.f.resolve_class(fn.module, n.func.id)
                        if c is not None:
                            inst.add(c)
            self._inst = inst
        return self._inst

    def methods_named(self, cls: ClassInfo, name: str) -> list[FuncInfo]:
        out = []
        subs = self.subclasses(cls)
        # a receiver is an instance of a class that is constructed somewhere: a base class nobody instantiates (a template with
        # hooks its subclasses fill in) contributes no receiver of its own when constructed subclasses exist
        live = [c for c in subs if c in self.instantiated()]
        if live and cls not in live and any(c is not cls for c in live):
            subs = live
        for c in subs:
            m = c.find_method(name)
            if m is not None and m not in out:
                out.append(m)
        return out

    def recv_class(self, fi: FuncInfo, e: ast.expr, local_types: dict) -> ClassInfo | None:
        from .absint import Interp
        if isinstance(e, ast.Name):
            if e.id == "self" and fi.cls is not None:
                return fi.cls
            if e.id in local_types:
                return local_types[e.id]
            a = fi.node.args
            for p in a.posonlyargs + a.args + a.kwonlyargs:
                if p.arg == e.id:
                    return self.f.annotation_class(fi.module, p.annotation)
            return None
        if isinstance(e, ast.Attribute):
            bc = self.recv_class(fi, e.value, local_types)
            if bc is not None:
                I = self._interp()
                return I.attr_class(bc, e.attr)
        if isinstance(e, ast.Call):
            if isinstance(e.func, ast.Name):
                if e.func.id == "super" and fi.cls is not None and fi.cls.bases:
                    return fi.cls.bases[0]
                c = self.f.resolve_class(fi.module, e.func.id)
                if c is not None:
                    return c
                if e.func.id == "cast" and len(e.args) == 2:
                    return self.f.annotation_class(fi.module, e.args[0])
        return None

    def _interp(self):
        if not hasattr(self, "_I"):
            from .absint import Interp
            self._I = Interp()
        return self._I

    def callable_targets(self, fi: FuncInfo, e: ast.expr, local_types: dict, bindings: dict) -> list[FuncInfo] | None:
        """Repo functions a callable expression may denote; None = not a repo function (external)."""
        if isinstance(e, ast.Name):
            if e.id in bindings:
                return list(bindings[e.id])
            busy = self.__dict__.setdefault("_resolving", set())
            if e.id not in fi.params() and (fi.qualname, e.id) not in busy:
                busy.add((fi.qualname, e.id))
                try:
                    res = None
                    for v in self._local_values(fi, e.id):
                        r_ = self.callable_targets(fi, v, local_types, bindings)
                        if r_ is not None:
                            res = (res or []) + [x for x in r_ if x not in (res or [])]
                finally:
                    busy.discard((fi.qualname, e.id))
                if res is not None:
                    return res
            r = self.f.resolve_name(fi.module, e.id)
            if r and r[0] == "func":
                return [r[1]]
            if r and r[0] == "class":
                init = r[1].find_method("__init__")
                return [init] if init else []
            return None
        if isinstance(e, ast.Attribute):
            c = self.recv_class(fi, e.value, local_types)
            if c is not None:
                ms = self.methods_named(c, e.attr)
                if ms:
                    return ms
                return None
        if isinstance(e, ast.Subscript):
            # dispatch through a table of callables: d[k]
            r = self._table_callables(fi, e.value, local_types, bindings, 0)
            if r is not None:
                return r
        if isinstance(e, ast.Call) and isinstance(e.func, ast.Attribute) and e.func.attr == "get" and e.args:
            # d.get(k[, default])
            r = self._table_callables(fi, e.func.value, local_types, bindings, 0)
            if r is not None:
                for a in e.args[1:]:
                    for x in self.callable_targets(fi, a, local_types, bindings) or []:
                        if x not in r:
                            r.append(x)
                return r
        if isinstance(e, ast.Call) and isinstance(e.func, ast.Name) and e.func.id == "getattr" and len(e.args) >= 2:
            # a method looked up by name: that method when the name is a constant, else any method the name may spell
            # (those with the constant prefix of the name expression; every method when nothing about the name is known)
            c = self.recv_class(fi, e.args[0], local_types)
            if c is not None:
                nm = e.args[1]
                prefix = ""
                exact = None
                if isinstance(nm, ast.Constant) and isinstance(nm.value, str):
                    exact = nm.value
                elif isinstance(nm, ast.JoinedStr) and nm.values and isinstance(nm.values[0], ast.Constant):
                    prefix = str(nm.values[0].value)
                elif isinstance(nm, ast.BinOp) and isinstance(nm.op, ast.Add) and isinstance(nm.left, ast.Constant) and isinstance(nm.left.value, str):
                    prefix = nm.left.value
                out = []
                for k in self.subclasses(c) + c.mro():
                    for mn, mf in k.methods.items():
                        if ((exact is not None and mn == exact) or (exact is None and mn.startswith(prefix) and not mn.startswith("__"))) and mf not in out:
                            out.append(mf)
                return out
        if isinstance(e, ast.IfExp):
            a, b = self.callable_targets(fi, e.body, local_types, bindings), self.callable_targets(fi, e.orelse, local_types, bindings)
            if a is not None or b is not None:
                return list(dict.fromkeys((a or []) + (b or [])))
        return None

    def _local_values(self, fi: FuncInfo, name: str):
        out = []
        for n in walk_no_nested_defs(fi.node):
            tgt = val = None
            if isinstance(n, ast.Assign) and len(n.targets) == 1:
                tgt, val = n.targets[0], n.value
            elif isinstance(n, ast.AnnAssign):
                tgt, val = n.target, n.value
            elif isinstance(n, ast.NamedExpr):
                tgt, val = n.target, n.value
            if isinstance(tgt, ast.Name) and tgt.id == name and val is not None:
                out.append(val)
        return out

    def _table_callables(self, fi: FuncInfo, d: ast.expr, local_types: dict, bindings: dict, depth: int):
        """Repo functions stored as values of the dict/sequence expression ``d`` (literal, local bound to one, class-level
        table, or the table returned by a repo function); None when d is no such table."""
        if depth > 4:
            return None
        if isinstance(d, (ast.Dict, ast.Tuple, ast.List)):
            vals = d.values if isinstance(d, ast.Dict) else d.elts
            out = []
            for v in vals:
                for x in self.callable_targets(fi, v, local_types, bindings) or []:
                    if x not in out:
                        out.append(x)
            return out
        if isinstance(d, (ast.DictComp, ast.ListComp, ast.GeneratorExp, ast.SetComp)):
            # a table computed from names: {n: getattr(self, f"prefix{n}") for n in ...} holds the methods with that prefix
            val = d.value if isinstance(d, ast.DictComp) else d.elt
            if isinstance(val, ast.Call) and isinstance(val.func, ast.Name) and val.func.id == "getattr" and len(val.args) >= 2:
                c = self.recv_class(fi, val.args[0], local_types)
                nm = val.args[1]
                prefix = None
                if isinstance(nm, ast.JoinedStr) and nm.values and isinstance(nm.values[0], ast.Constant):
                    prefix = str(nm.values[0].value)
                elif isinstance(nm, ast.BinOp) and isinstance(nm.op, ast.Add) and isinstance(nm.left, ast.Constant) and isinstance(nm.left.value, str):
                    prefix = nm.left.value
                if c is not None and prefix:
                    out = []
                    for k in c.mro():
                        for mn, mf in k.methods.items():
                            if mn.startswith(prefix) and mf not in out:
                                out.append(mf)
                    return out
            r = self.callable_targets(fi, val, local_types, bindings)
            return r
        if isinstance(d, ast.Name):
            res = None
            for v in self._local_values(fi, d.id):
                r = self._table_callables(fi, v, local_types, bindings, depth + 1)
                if r is not None:
                    res = (res or []) + [x for x in r if x not in (res or [])]
            if res is None:
                g = fi.module.globals.get(d.id)
                if g is not None:
                    return self._table_callables(fi, g, local_types, bindings, depth + 1)
            return res
        if isinstance(d, ast.Attribute):
            c = self.recv_class(fi, d.value, local_types)
            if c is not None:
                ca = c.find_class_attr(d.attr)
                if ca is not None:
                    owner = ca[0]
                    any_m = next(iter(owner.methods.values()), fi)
                    return self._table_callables(any_m, ca[1], local_types, bindings, depth + 1)
            return None
        if isinstance(d, ast.Call):
            ts = self.callable_targets(fi, d.func, local_types, bindings)
            res = None
            for t in ts or []:
                for n in walk_no_nested_defs(t.node):
                    if isinstance(n, ast.Return) and n.value is not None:
                        r = self._table_callables(t, n.value, {}, {}, depth + 1)
                        if r is not None:
                            res = (res or []) + [x for x in r if x not in (res or [])]
            return res
        return None

    # -- analysis --------------------------------------------------------------------------
    def raises(self, fi: FuncInfo, mode: str, bindings: dict | None = None, depth: int = 0) -> frozenset:
        """Set of (exception class name, origin qualname, line)."""
        bindings = bindings or {}
        key = (fi.qualname, mode, tuple(sorted((k, tuple(sorted(x.qualname for x in v))) for k, v in bindings.items())))
        if key in self.memo:
            return self.memo[key]
        self.memo[key] = frozenset()
        if depth > 25:
            return frozenset()
        local_types: dict = {}
        for n in walk_no_nested_defs(fi.node):
            if isinstance(n, ast.Assign) and len(n.targets) == 1 and isinstance(n.targets[0], ast.Name):
                c = self.recv_class(fi, n.value, local_types)
                if c is not None:
                    local_types[n.targets[0].id] = c
            if isinstance(n, ast.AnnAssign) and isinstance(n.target, ast.Name):
                c = self.f.annotation_class(fi.module, n.annotation)
                if c is not None:
                    local_types[n.target.id] = c
        # exception variables assigned from constructors
        exc_vars: dict[str, set] = {}
        for n in walk_no_nested_defs(fi.node):
            if isinstance(n, ast.Assign) and len(n.targets) == 1 and isinstance(n.targets[0], ast.Name):
                names = set()
                for c in ast.walk(n.value):
                    if isinstance(c, ast.Call) and isinstance(c.func, ast.Name) and (c.func.id.endswith("Exception") or c.func.id.endswith("Error")):
                        names.add(c.func.id)
                if names:
                    exc_vars[n.targets[0].id] = names
        saved = type(self)._mode_aliases
        type(self)._mode_aliases = self._aliases_of_mode(fi)
        try:
            res = self._block(fi, fi.node.body, mode, bindings, local_types, exc_vars, depth)
        finally:
            type(self)._mode_aliases = saved
        self.memo[key] = frozenset(res)
        return self.memo[key]

    def _expr_calls(self, fi, e, mode, bindings, local_types, exc_vars, depth) -> set:
        out = set()
        for c in walk_no_nested_defs(e) if isinstance(e, ast.AST) else []:
            if isinstance(c, ast.Attribute) and isinstance(c.ctx, ast.Load):
                rc = self.recv_class(fi, c.value, local_types)
                if rc is not None:
                    for pm in self.methods_named(rc, c.attr):
                        if pm.is_property:
                            out |= set(self.raises(pm, mode, {}, depth + 1))
            if not isinstance(c, ast.Call):
                continue
            tg = self.callable_targets(fi, c.func, local_types, bindings)
            if tg is None:
                continue
            tg = [t for t in tg if t.qualname not in self.skip]
            # callable arguments bound to parameters of the callee
            for t in tg:
                b2 = {}
                params = t.params()
                off = 1 if (t.cls is not None and not t.is_static and isinstance(c.func, (ast.Attribute,)) ) or (t.name == "__init__") else 0
                for i, a in enumerate(c.args):
                    at = self.callable_targets(fi, a, local_types, bindings) if isinstance(a, (ast.Attribute, ast.Name)) else None
                    if at and not (isinstance(a, ast.Name) and a.id not in bindings and self.f.resolve_name(fi.module, a.id) is None):
                        if i + off < len(params):
                            b2[params[i + off]] = at
                out |= set(self.raises(t, mode, b2, depth + 1))
        return out

    _mode_aliases: frozenset = frozenset()      # local names bound once to self.stop_at_first_error in the function being walked

    @staticmethod
    def _is_mode_attr(t) -> bool:
        return isinstance(t, ast.Attribute) and t.attr == "stop_at_first_error" and isinstance(t.value, ast.Name) and t.value.id == "self"

    @classmethod
    def _mode_test(cls, t):
        """(True, negated) when the test is ``[not] self.stop_at_first_error`` (or a local alias of it)."""
        neg = False
        if isinstance(t, ast.UnaryOp) and isinstance(t.op, ast.Not):
            t, neg = t.operand, True
        if cls._is_mode_attr(t) or (isinstance(t, ast.Name) and t.id in cls._mode_aliases):
            return True, neg
        return False, False

    def _handler_type_text(self, fi, t, mode, depth=0):
        """Source text of the classes an ``except`` clause catches ('(A, B)' / 'A' / '()' for nothing / None for everything),
        resolving computed types: a local bound once, a class-level tuple, a choice on the error mode."""
        if t is None:
            return None
        if depth > 4:
            return ast.unparse(t)
        if isinstance(t, ast.IfExp):
            is_mode, neg = self._mode_test(t.test)
            if is_mode:
                return self._handler_type_text(fi, t.body if (mode == "stop") != neg else t.orelse, mode, depth + 1)
            return ast.unparse(t)
        if isinstance(t, ast.Name) and self.f.resolve_class(fi.module, t.id) is None:
            vals = self._local_values(fi, t.id)
            if len(vals) == 1:
                return self._handler_type_text(fi, vals[0], mode, depth + 1)
            g = fi.module.globals.get(t.id)
            if g is not None:
                return self._handler_type_text(fi, g, mode, depth + 1)
        if isinstance(t, ast.Attribute) and isinstance(t.value, ast.Name) and t.value.id in ("self", "cls") and fi.cls is not None:
            ca = fi.cls.find_class_attr(t.attr)
            if ca is not None:
                return self._handler_type_text(fi, ca[1], mode, depth + 1)
        if isinstance(t, ast.Tuple) and not t.elts:
            return "()"
        return ast.unparse(t)

    def _aliases_of_mode(self, fi) -> frozenset:
        out = set()
        seen: dict = {}
        for n in walk_no_nested_defs(fi.node):
            if isinstance(n, ast.Name) and isinstance(n.ctx, ast.Store):
                seen[n.id] = seen.get(n.id, 0) + 1
        for n in walk_no_nested_defs(fi.node):
            if isinstance(n, ast.Assign) and len(n.targets) == 1 and isinstance(n.targets[0], ast.Name) and self._is_mode_attr(n.value) \
                    and seen.get(n.targets[0].id) == 1:
                out.add(n.targets[0].id)
        return frozenset(out)

    @classmethod
    def _terminates(cls, stmts, mode) -> bool:
        """The block never falls through to the statement after it (in the given error mode)."""
        for s in stmts:
            if isinstance(s, (ast.Return, ast.Raise, ast.Break, ast.Continue)):
                return True
            if isinstance(s, ast.If):
                is_mode, neg = cls._mode_test(s.test)
                if is_mode:
                    if cls._terminates(s.body if (mode == "stop") != neg else s.orelse, mode):
                        return True
                elif cls._terminates(s.body, mode) and cls._terminates(s.orelse, mode):
                    return True
            elif isinstance(s, ast.Try):
                if s.finalbody and cls._terminates(s.finalbody, mode):
                    return True
                if cls._terminates(list(s.body) + list(s.orelse), mode) and all(cls._terminates(h.body, mode) for h in s.handlers):
                    return True
            elif isinstance(s, ast.With) and cls._terminates(s.body, mode):
                return True
        return False

    def _raised_classes(self, fi, call: ast.Call, local_types, bindings, depth=0) -> set:
        """Class names of the exception object ``raise <call>`` raises: the class called, or - when the call goes to a factory
        function of the repository - the classes that function constructs and returns (its return annotation as a fall-back)."""
        nm = dotted(call.func)
        short = nm.split(".")[-1] if nm else "Unknown"
        if isinstance(call.func, ast.Name) and self.f.resolve_class(fi.module, call.func.id) is not None:
            return {short}
        ts = self.callable_targets(fi, call.func, local_types, bindings) if depth < 3 else None
        out = set()
        for t in ts or []:
            if t.name == "__init__" and t.cls is not None:
                out.add(t.cls.name)
                continue
            found = False
            for n in walk_no_nested_defs(t.node):
                if isinstance(n, ast.Return) and isinstance(n.value, ast.Call):
                    out |= self._raised_classes(t, n.value, {}, {}, depth + 1)
                    found = True
            if not found and t.node.returns is not None:
                c = self.f.annotation_class(t.module, t.node.returns)
                if c is not None:
                    out.add(c.name)
                    found = True
            if not found:
                out.add("Unknown")
        return out or {short}

    def _block(self, fi, stmts, mode, bindings, local_types, exc_vars, depth) -> set:
        out = set()
        for i_, s in enumerate(stmts):
            if i_ and self._terminates(stmts[i_ - 1:i_], mode):
                break           # unreachable in this mode
            if isinstance(s, (ast.FunctionDef, ast.AsyncFunctionDef, ast.ClassDef)):
                continue
            if isinstance(s, ast.Raise):
                names = set()
                if isinstance(s.exc, ast.Call):
                    names |= self._raised_classes(fi, s.exc, local_types, bindings)
                    out |= self._expr_calls(fi, s.exc, mode, bindings, local_types, exc_vars, depth)
                elif isinstance(s.exc, ast.Name):
                    names |= exc_vars.get(s.exc.id, {"<" + s.exc.id + ">"})
                elif s.exc is None:
                    names.add("<reraise>")
                else:
                    names.add("Unknown")
                for nm in names:
                    out.add((nm, fi.qualname, s.lineno))
                    self.sites.append((nm, fi.file, s.lineno, fi.qualname))
                continue
            if isinstance(s, ast.Assert):
                out.add(("AssertionError", fi.qualname, s.lineno))
                self.sites.append(("AssertionError", fi.file, s.lineno, fi.qualname))
                out |= self._expr_calls(fi, s.test, mode, bindings, local_types, exc_vars, depth)
                continue
            if isinstance(s, ast.If):
                is_mode_, neg = self._mode_test(s.test)
                if is_mode_:
                    take_body = (mode == "stop") != neg
                    out |= self._block(fi, s.body if take_body else s.orelse, mode, bindings, local_types, exc_vars, depth)
                    continue
                out |= self._expr_calls(fi, s.test, mode, bindings, local_types, exc_vars, depth)
                out |= self._block(fi, s.body, mode, bindings, local_types, exc_vars, depth)
                out |= self._block(fi, s.orelse, mode, bindings, local_types, exc_vars, depth)
                continue
            if isinstance(s, (ast.For, ast.While)):
                out |= self._expr_calls(fi, s.iter if isinstance(s, ast.For) else s.test, mode, bindings, local_types, exc_vars, depth)
                out |= self._block(fi, s.body, mode, bindings, local_types, exc_vars, depth)
                out |= self._block(fi, s.orelse, mode, bindings, local_types, exc_vars, depth)
                continue
            if isinstance(s, ast.With):
                for it in s.items:
                    out |= self._expr_calls(fi, it.context_expr, mode, bindings, local_types, exc_vars, depth)
                out |= self._block(fi, s.body, mode, bindings, local_types, exc_vars, depth)
                continue
            if isinstance(s, ast.Try):
                body = self._block(fi, s.body, mode, bindings, local_types, exc_vars, depth)
                rest = set()
                for e in body:
                    caught = False
                    for h in s.handlers:
                        ht = self._handler_type_text(fi, h.type, mode)
                        if ht != "()" and self.caught_by(e[0], ht):
                            caught = True
                            break
                    if not caught:
                        rest.add(e)
                out |= rest
                for h in s.handlers:
                    hb = self._block(fi, h.body, mode, bindings, local_types, exc_vars, depth)
                    # a bare ``raise`` in a handler re-raises what it caught
                    for e in hb:
                        if e[0] == "<reraise>":
                            for b in body:
                                ht = self._handler_type_text(fi, h.type, mode)
                                if ht != "()" and self.caught_by(b[0], ht):
                                    out.add(b)
                        else:
                            out.add(e)
                out |= self._block(fi, s.orelse, mode, bindings, local_types, exc_vars, depth)
                out |= self._block(fi, s.finalbody, mode, bindings, local_types, exc_vars, depth)
                continue
            out |= self._expr_calls(fi, s, mode, bindings, local_types, exc_vars, depth)
        return out
