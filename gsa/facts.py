"""PyFacts: the parsed program (all python/gherkin/**/*.py and python/scripts/*.py).

Indexes modules, classes (with MRO), methods and module-level functions; resolves annotation
names to repository classes; records class attribute types from annotations and ``__init__``.
Nothing is imported or executed.
"""
from __future__ import annotations

import ast
import os

from .common import REPO, AnalysisError, repo_path


def _specialise_partialmethod(method: ast.FunctionDef, call: ast.Call, name: str):
    """``name = partialmethod(method, c1, ..., k=c)`` in a class body, as a method of its own: ``method`` with its leading
    parameters (after self) replaced by the constants.  None unless all bound arguments are constants and the method does
    not rebind those parameters."""
    import copy
    a = method.args
    bound_pos = call.args[1:]
    if a.vararg or a.kwarg or method.decorator_list or any(not isinstance(x, ast.Constant) for x in bound_pos) \
            or any(k.arg is None or not isinstance(k.value, ast.Constant) for k in call.keywords):
        return None
    params = [p.arg for p in a.posonlyargs + a.args]
    if len(bound_pos) > len(params) - 1:
        return None
    env = {p_: v for p_, v in zip(params[1:], bound_pos)}
    for k in call.keywords:
        if k.arg not in params[1:] + [x.arg for x in a.kwonlyargs] or k.arg in env:
            return None
        env[k.arg] = k.value
    if any(isinstance(n, ast.Name) and isinstance(n.ctx, (ast.Store, ast.Del)) and n.id in env for n in ast.walk(method)):
        return None
    made = copy.deepcopy(method)
    made.name = name
    ma = made.args
    n_pos = len(ma.posonlyargs) + len(ma.args)
    defaults = [None] * (n_pos - len(ma.defaults)) + list(ma.defaults)
    keep = [i for i, p_ in enumerate(ma.posonlyargs + ma.args) if p_.arg not in env]
    allp = ma.posonlyargs + ma.args
    new_pos = [allp[i] for i in keep if i < len(ma.posonlyargs)]
    new_args = [allp[i] for i in keep if i >= len(ma.posonlyargs)]
    new_defaults = [defaults[i] for i in keep]
    while new_defaults and new_defaults[0] is None:
        new_defaults.pop(0)
    if any(d is None for d in new_defaults):
        return None
    ma.posonlyargs, ma.args, ma.defaults = new_pos, new_args, new_defaults
    kwo = [(p_, d) for p_, d in zip(ma.kwonlyargs, ma.kw_defaults) if p_.arg not in env]
    ma.kwonlyargs, ma.kw_defaults = [x for x, _ in kwo], [d for _, d in kwo]

    class Sub(ast.NodeTransformer):
        def visit_Name(self, n):
            if isinstance(n.ctx, ast.Load) and n.id in env:
                return ast.copy_location(copy.deepcopy(env[n.id]), n)
            return n
    made.body = [Sub().visit(st) for st in made.body]
    ast.fix_missing_locations(made)
    return made


def _specialise_factory(factory: ast.FunctionDef, call: ast.Call, name: str):
    """The function a factory returns for one call with constant arguments, as a definition of its own: the factory's inner
    ``def`` with the factory's parameters (and the locals computed from them before the ``def``) put in place.  None unless the
    factory is of the simple shape: assignments, one inner def, attribute tweaks on it, ``return <that def>``."""
    import copy
    a = factory.args
    if a.vararg or a.kwarg or any(not isinstance(x, ast.Constant) for x in call.args) or any(k.arg is None or not isinstance(k.value, ast.Constant) for k in call.keywords):
        return None
    params = [p.arg for p in a.posonlyargs + a.args]
    if len(call.args) > len(params):
        return None
    env: dict = {}
    defaults = dict(zip(params[len(params) - len(a.defaults):], a.defaults))
    for p_, d in zip(a.kwonlyargs, a.kw_defaults):
        if d is not None:
            defaults[p_.arg] = d
    for p_, v in zip(params, call.args):
        env[p_] = v
    for k in call.keywords:
        env[k.arg] = k.value
    for p_ in params + [x.arg for x in a.kwonlyargs]:
        if p_ not in env:
            if p_ not in defaults or not isinstance(defaults[p_], ast.Constant):
                return None
            env[p_] = defaults[p_]

    class Sub(ast.NodeTransformer):
        def __init__(self, shadow=()):
            self.shadow = set(shadow)
        def visit_Name(self, n):
            if isinstance(n.ctx, ast.Load) and n.id in env and n.id not in self.shadow:
                return ast.copy_location(copy.deepcopy(env[n.id]), n)
            return n
    inner = None
    body = [s for s in factory.body if not (isinstance(s, ast.Expr) and isinstance(s.value, ast.Constant))]
    for st in body:
        if isinstance(st, ast.Assign) and len(st.targets) == 1 and isinstance(st.targets[0], ast.Name) and inner is None:
            env[st.targets[0].id] = Sub().visit(copy.deepcopy(st.value))
        elif isinstance(st, ast.FunctionDef) and inner is None:
            inner = st
        elif isinstance(st, ast.Assign) and inner is not None and all(isinstance(t, ast.Attribute) and isinstance(t.value, ast.Name) and t.value.id == inner.name for t in st.targets):
            continue            # ``f.__name__ = ...``: naming only
        elif isinstance(st, ast.Return) and inner is not None and isinstance(st.value, ast.Name) and st.value.id == inner.name:
            break
        else:
            return None
    else:
        return None
    if inner is None or inner.decorator_list:
        return None
    made = copy.deepcopy(inner)
    made.name = name
    own = {p.arg for p in made.args.posonlyargs + made.args.args + made.args.kwonlyargs}
    own |= {n.id for n in ast.walk(made) if isinstance(n, ast.Name) and isinstance(n.ctx, ast.Store)}
    made.body = [Sub(own).visit(st) for st in made.body]
    ast.copy_location(made, call)
    for x in ast.walk(made):
        if not hasattr(x, "lineno"):
            ast.copy_location(x, call)
    ast.fix_missing_locations(made)
    return made


class FuncInfo:
    def __init__(self, module: "ModInfo", cls: "ClassInfo | None", node: ast.FunctionDef) -> None:
        self.module = module
        self.cls = cls
        self.node = node
        self.name = node.name
        decos = []
        for d in node.decorator_list:
            if isinstance(d, ast.Name):
                decos.append(d.id)
            elif isinstance(d, ast.Attribute):
                decos.append(d.attr)
        self.decorators = decos
        self.is_static = "staticmethod" in decos
        self.is_classmethod = "classmethod" in decos
        self.is_property = "property" in decos or "cached_property" in decos     # (that a remembered value is never stale is C15.memo's rule)
        self.is_overload = "overload" in decos

    @property
    def qualname(self) -> str:
        if self.cls is not None:
            return f"{self.module.name}.{self.cls.name}.{self.name}"
        return f"{self.module.name}.{self.name}"

    @property
    def file(self) -> str:
        return self.module.rel

    def params(self) -> list[str]:
        a = self.node.args
        return [x.arg for x in a.posonlyargs + a.args]

    def __repr__(self) -> str:
        return f"<Func {self.qualname}>"


class ClassInfo:
    def __init__(self, module: "ModInfo", node: ast.ClassDef, outer: "ClassInfo | None" = None) -> None:
        self.module = module
        self.node = node
        self.name = node.name if outer is None else f"{outer.name}.{node.name}"
        self.short = node.name
        self.base_names = []
        for b in node.bases:
            if isinstance(b, ast.Name):
                self.base_names.append(b.id)
            elif isinstance(b, ast.Attribute):
                self.base_names.append(b.attr)
        self.methods: dict[str, FuncInfo] = {}
        self.setters: dict[str, FuncInfo] = {}      # property setters, by property name
        self.class_attrs: dict[str, ast.expr] = {}       # name -> value expr (class-level Assign)
        self.annotations: dict[str, ast.expr] = {}       # name -> annotation expr
        self.bases: list[ClassInfo] = []
        self.is_typeddict = "TypedDict" in self.base_names
        self.is_dataclass = any(
            (isinstance(d, ast.Name) and d.id == "dataclass")
            or (isinstance(d, ast.Attribute) and d.attr == "dataclass")
            or (isinstance(d, ast.Call) and getattr(d.func, "id", getattr(d.func, "attr", "")) == "dataclass")
            for d in node.decorator_list
        )

    @property
    def qualname(self) -> str:
        return f"{self.module.name}.{self.name}"

    def mro(self) -> list["ClassInfo"]:
        out = [self]
        for b in self.bases:
            for c in b.mro():
                if c not in out:
                    out.append(c)
        return out

    def all_methods(self) -> list:
        """Methods visible on the class (own and inherited from repository classes), overriding ones first."""
        out, seen = [], set()
        for c in self.mro():
            for nm, fi in c.methods.items():
                if nm not in seen:
                    seen.add(nm)
                    out.append(fi)
        return out

    def find_method(self, name: str) -> FuncInfo | None:
        for c in self.mro():
            if name in c.methods:
                return c.methods[name]
        return None

    def find_method_after(self, owner: "ClassInfo", name: str) -> FuncInfo | None:
        """super() lookup: first definition of ``name`` after ``owner`` in this class's MRO."""
        m = self.mro()
        if owner in m:
            for c in m[m.index(owner) + 1:]:
                if name in c.methods:
                    return c.methods[name]
        return None

    @property
    def is_namedtuple(self) -> bool:
        """An immutable record: a NamedTuple, or a frozen dataclass with nothing of its own in construction."""
        return any("NamedTuple" in c.base_names for c in self.mro()) or self.is_frozen_record

    @property
    def is_frozen_record(self) -> bool:
        if not self.is_dataclass:
            return False
        frozen = any(isinstance(d, ast.Call) and any(k.arg == "frozen" and isinstance(k.value, ast.Constant) and k.value.value is True for k in d.keywords)
                     for d in self.node.decorator_list)
        return frozen and all(self.find_method(m) is None for m in ("__init__", "__post_init__", "__new__", "__setattr__", "__getattr__", "__bool__", "__len__"))

    def nt_fields(self) -> list:
        """Field names of a record class (NamedTuple / frozen dataclass), in declaration order."""
        out = []
        for c in reversed(self.mro()):
            for k in c.annotations:
                if k not in out and "ClassVar" not in ast.unparse(c.annotations[k]):
                    out.append(k)
        return out

    def is_enum_like(self) -> bool:
        """Members of Enum classes are objects, not the values written in the class body."""
        return any(b in ("Enum", "IntEnum", "StrEnum", "Flag", "IntFlag") for c in self.mro() for b in c.base_names)

    def find_class_attr(self, name: str):
        for c in self.mro():
            if name in c.class_attrs:
                return c, c.class_attrs[name]
        return None

    def __repr__(self) -> str:
        return f"<Class {self.qualname}>"


class ModInfo:
    def __init__(self, name: str, rel: str, tree: ast.Module, src: str) -> None:
        self.name = name
        self.rel = rel
        self.tree = tree
        self.src = src
        self.classes: dict[str, ClassInfo] = {}
        self.functions: dict[str, FuncInfo] = {}
        self.globals: dict[str, ast.expr] = {}      # module-level simple assignments
        self.imports: dict[str, tuple[str, str | None]] = {}  # local name -> (module, attr)


class PyFacts:
    def __init__(self) -> None:
        self.modules: dict[str, ModInfo] = {}
        self.classes_by_short: dict[str, list[ClassInfo]] = {}
        self._load()
        self._link()

    # ---------------------------------------------------------------------------------
    def _load(self) -> None:
        roots = [("python/gherkin", "gherkin"), ("python/scripts", "scripts")]
        for rel_root, pkg in roots:
            absroot = repo_path(rel_root)
            if not os.path.isdir(absroot):
                if pkg == "gherkin":
                    raise AnalysisError(f"anchor directory vanished: {rel_root}")
                continue
            for dirpath, dirnames, filenames in os.walk(absroot):
                dirnames[:] = sorted(d for d in dirnames if d != "__pycache__")
                for fn in sorted(filenames):
                    if not fn.endswith(".py"):
                        continue
                    ap = os.path.join(dirpath, fn)
                    rel = os.path.relpath(ap, REPO)
                    sub = os.path.relpath(ap, absroot)[:-3].replace(os.sep, ".")
                    name = pkg if sub == "__init__" else f"{pkg}.{sub}"
                    if name.endswith(".__init__"):
                        name = name[: -len(".__init__")]
                    with open(ap, encoding="utf-8") as f:
                        src = f.read()
                    try:
                        tree = ast.parse(src, filename=rel)
                    except SyntaxError as e:
                        raise AnalysisError(f"{rel} does not parse: {e}")
                    if "contextmanager" in src:
                        from .lowering import lower_contextmanagers
                        tree = lower_contextmanagers(tree)
                    self.modules[name] = self._index(ModInfo(name, rel, tree, src))

    def _index(self, m: ModInfo) -> ModInfo:
        def index_class(node: ast.ClassDef, outer: ClassInfo | None) -> ClassInfo:
            c = ClassInfo(m, node, outer)
            for st in node.body:
                if isinstance(st, (ast.FunctionDef, ast.AsyncFunctionDef)):
                    fi = FuncInfo(m, c, st)
                    if fi.is_overload:
                        continue
                    if any(d in ("setter", "deleter") for d in fi.decorators) and st.name in c.methods and c.methods[st.name].is_property:
                        # ``@name.setter``: the property keeps its getter; the setter runs where the attribute is assigned
                        c.setters[st.name] = fi
                        continue
                    c.methods[st.name] = fi
                elif isinstance(st, ast.Assign):
                    for t in st.targets:
                        if isinstance(t, ast.Name):
                            c.class_attrs[t.id] = st.value
                elif isinstance(st, ast.AnnAssign) and isinstance(st.target, ast.Name):
                    c.annotations[st.target.id] = st.annotation
                    if st.value is not None:
                        c.class_attrs[st.target.id] = st.value
                elif isinstance(st, ast.ClassDef):
                    inner = index_class(st, c)
                    m.classes[inner.name] = inner
            return c

        for st in m.tree.body:
            self._index_stmt(m, st, index_class)
        # methods made by a factory called in the class body: ``match_EOF = _token_rule('EOF', matches_eof=True)``
        for c in m.classes.values():
            for name, val in list(c.class_attrs.items()):
                if name not in c.methods and isinstance(val, ast.Call) and getattr(val.func, "id", getattr(val.func, "attr", "")) == "partialmethod" \
                        and val.args and isinstance(val.args[0], ast.Name) and val.args[0].id in c.methods:
                    made = _specialise_partialmethod(c.methods[val.args[0].id].node, val, name)
                    if made is not None:
                        c.methods[name] = FuncInfo(m, c, made)
                    continue
                if name in c.methods or not (isinstance(val, ast.Call) and isinstance(val.func, ast.Name) and val.func.id in m.functions):
                    continue
                made = _specialise_factory(m.functions[val.func.id].node, val, name)
                if made is not None:
                    c.methods[name] = FuncInfo(m, c, made)
        return m

    def _index_stmt(self, m: ModInfo, st: ast.stmt, index_class) -> None:
        if isinstance(st, ast.ClassDef):
            c = index_class(st, None)
            m.classes[c.name] = c
        elif isinstance(st, (ast.FunctionDef, ast.AsyncFunctionDef)):
            m.functions[st.name] = FuncInfo(m, None, st)
        elif isinstance(st, ast.Assign):
            for t in st.targets:
                if isinstance(t, ast.Name):
                    m.globals[t.id] = st.value
        elif isinstance(st, ast.AnnAssign) and isinstance(st.target, ast.Name) and st.value is not None:
            m.globals[st.target.id] = st.value
        elif isinstance(st, ast.ImportFrom):
            mod = self._abs_module(m, st.module, st.level)
            for a in st.names:
                m.imports[a.asname or a.name] = (mod, a.name)
        elif isinstance(st, ast.Import):
            for a in st.names:
                m.imports[a.asname or a.name.split(".")[0]] = (a.name, None)
        elif isinstance(st, ast.If):
            # e.g. ``if typing.TYPE_CHECKING:`` blocks: index imports only
            for s2 in st.body + st.orelse:
                if isinstance(s2, (ast.ImportFrom, ast.Import)):
                    self._index_stmt(m, s2, index_class)
        elif isinstance(st, ast.With):
            for s2 in st.body:
                self._index_stmt(m, s2, index_class)

    @staticmethod
    def _abs_module(m: ModInfo, module: str | None, level: int) -> str:
        if level == 0:
            return module or ""
        parts = m.name.split(".")
        is_pkg = m.rel.endswith("__init__.py")
        base = parts if is_pkg else parts[:-1]
        if level > 1:
            base = base[: len(base) - (level - 1)]
        return ".".join(base + ([module] if module else []))

    def _link(self) -> None:
        for m in self.modules.values():
            for c in m.classes.values():
                self.classes_by_short.setdefault(c.short, []).append(c)
        for m in self.modules.values():
            for c in m.classes.values():
                for bn in c.base_names:
                    b = self.resolve_class(m, bn)
                    if b is not None:
                        c.bases.append(b)

    # ---------------------------------------------------------------------------------
    def resolve_name(self, m: ModInfo, name: str):
        """Resolve a bare name in module ``m`` to ('class', ClassInfo) | ('func', FuncInfo) |
        ('global', ModInfo, name) | ('module', modname) | None."""
        if name in m.classes:
            return ("class", m.classes[name])
        if name in m.functions:
            return ("func", m.functions[name])
        if name in m.globals:
            return ("global", m, name)
        if name in m.imports:
            mod, attr = m.imports[name]
            if attr is None:
                return ("module", mod)
            tm = self.modules.get(mod)
            if tm is None:
                # might be a submodule import: from gherkin import parser
                sub = self.modules.get(f"{mod}.{attr}")
                if sub is not None:
                    return ("module", sub.name)
                return ("external", mod, attr)
            if attr in tm.classes or attr in tm.functions or attr in tm.globals or attr in tm.imports:
                return self.resolve_name(tm, attr)
            return ("external", mod, attr)
        return None

    def resolve_class(self, m: ModInfo, name: str) -> ClassInfo | None:
        r = self.resolve_name(m, name)
        if r and r[0] == "class":
            return r[1]
        return None

    def cls(self, qual: str) -> ClassInfo:
        """Look up 'gherkin.parser.Parser'."""
        mod, _, cn = qual.rpartition(".")
        m = self.modules.get(mod)
        if m is None or cn not in m.classes:
            # nested class: gherkin.stream.gherkin_events.GherkinEvents.Options
            mod2, _, outer = mod.rpartition(".")
            m2 = self.modules.get(mod2)
            if m2 is not None and f"{outer}.{cn}" in m2.classes:
                return m2.classes[f"{outer}.{cn}"]
            # the class moved: the module still exports the name (re-export), or exactly one class of the package has it
            if m is not None and cn in m.imports:
                r = self.resolve_name(m, cn)
                if r and r[0] == "class":
                    return r[1]
            same = [c for mm in self.modules.values() if not mm.name.startswith("scripts") for k, c in mm.classes.items() if k == cn]
            if len(same) == 1:
                return same[0]
            raise AnalysisError(f"anchor class vanished: {qual}")
        return m.classes[cn]

    def prelude(self) -> ModInfo:
        """Library-function definitions the interpreter inlines (gsa/prelude_src.txt); kept outside ``modules`` so that no
        package-wide rule ever looks at them."""
        if getattr(self, "_prelude", None) is None:
            path = os.path.join(os.path.dirname(os.path.abspath(__file__)), "prelude_src.txt")
            src = open(path, encoding="utf-8").read()
            self._prelude = self._index(ModInfo("gsa_prelude", "gsa/prelude_src.txt", ast.parse(src), src))
        return self._prelude

    def func(self, qual: str) -> FuncInfo:
        """Look up 'gherkin.parser.Parser.parse' or 'gherkin.stream.source_events.source_event'."""
        head, _, fn = qual.rpartition(".")
        if head == "gsa_prelude":
            return self.prelude().functions[fn]
        m = self.modules.get(head)
        if m is not None and fn in m.functions:
            return m.functions[fn]
        if m is not None and fn in m.imports:
            r = self.resolve_name(m, fn)        # a module-level function that moved and is re-exported
            if r and r[0] == "func":
                return r[1]
        try:
            c = self.cls(head)
        except AnalysisError:
            if m is not None or head in self.modules or not self.modules.get(head.rpartition(".")[0]):
                same = [f for mm in self.modules.values() if not mm.name.startswith("scripts") for k, f in mm.functions.items() if k == fn]
                if m is not None and len(same) == 1:
                    return same[0]
            raise AnalysisError(f"anchor function vanished: {qual}")
        f = c.find_method(fn)
        if f is None:
            raise AnalysisError(f"anchor function vanished: {qual}")
        return f

    def has_class(self, qual: str) -> bool:
        try:
            self.cls(qual)
            return True
        except AnalysisError:
            return False

    def has_func(self, qual: str) -> bool:
        try:
            self.func(qual)
            return True
        except AnalysisError:
            return False

    def annotation_class(self, m: ModInfo, ann: ast.expr | None) -> ClassInfo | None:
        """Class named by an annotation (``T``, ``T | None``, ``Optional[T]``, string forms).  A Protocol stands for the one class
        of the package that implements it, when there is exactly one."""
        c = self._annotation_class(m, ann)
        if c is not None and any(b in ("Protocol", "typing.Protocol") or b.startswith("Protocol[") for b in c.base_names):
            names = [k for k in c.methods if not (k.startswith("__") and k.endswith("__"))]
            impl = [k for k in self.all_classes() if k is not c and not k.module.name.startswith("scripts")
                    and not any(b.startswith("Protocol") or b == "typing.Protocol" for b in k.base_names)
                    and names and all(k.find_method(n_) is not None for n_ in names)]
            return impl[0] if len(impl) == 1 else None
        return c

    def _annotation_class(self, m: ModInfo, ann: ast.expr | None) -> ClassInfo | None:
        if ann is None:
            return None
        if isinstance(ann, ast.Constant) and isinstance(ann.value, str):
            try:
                ann = ast.parse(ann.value, mode="eval").body
            except SyntaxError:
                return None
        if isinstance(ann, ast.Name):
            return self.resolve_class(m, ann.id)
        if isinstance(ann, ast.Attribute):
            cs = self.classes_by_short.get(ann.attr, [])
            return cs[0] if len(cs) == 1 else None
        if isinstance(ann, ast.BinOp) and isinstance(ann.op, ast.BitOr):
            return self.annotation_class(m, ann.left) or self.annotation_class(m, ann.right)
        if isinstance(ann, ast.Subscript):
            base = ann.value
            bn = base.id if isinstance(base, ast.Name) else getattr(base, "attr", "")
            if bn in ("Optional", "Union"):
                sl = ann.slice
                elts = sl.elts if isinstance(sl, ast.Tuple) else [sl]
                for e in elts:
                    c = self.annotation_class(m, e)
                    if c is not None:
                        return c
        return None

    def all_classes(self):
        for m in self.modules.values():
            yield from m.classes.values()

    def all_functions(self):
        for m in self.modules.values():
            for f in m.functions.values():
                yield f
            for c in m.classes.values():
                for f in c.methods.values():
                    yield f
                for f in c.setters.values():
                    yield f


_FACTS: PyFacts | None = None


def facts() -> PyFacts:
    global _FACTS
    if _FACTS is None:
        _FACTS = PyFacts()
    return _FACTS
